#!/usr/bin/env python3
"""(Re)writes seeded/<id>/meta.json from the hand-written table below, confirm.json (what tools/confirm_seed.sh ran
and saw) and detection.json (what tools/seeded.py saw)."""
import json, os
V = os.path.dirname(os.path.dirname(os.path.abspath(__file__)))
T = {
 "S-C01": ("C01", "QuinticSplineND::convertTimePointsToSegments rewritten with std::adjacent_difference: first duration becomes t1 instead of t1 - t0",
           "quintic spline built/updated from absolute time points whose first time point is not 0"),
 "S-C02": ("C02", "QuinticSplineND::solveInternalDerivatives: the end-boundary right-hand-side correction moved into the else arm of the first-block test",
           "quintic, exactly N = 2 segments, non-zero end velocity or acceleration"),
 "S-C03": ("C03", "PPolyND::findSegment: lower bound dropped from the hinted 'next piece' fast path",
           "hinted evaluation with a stale but valid hint that lies later than the piece containing t"),
 "S-C04": ("C04", "CubicSplineND::getEnergy rewritten over strided Eigen::Map views of the coefficient storage",
           "cubic spline with DIM == 1 (column-major storage) and N >= 2"),
 "S-C05": ("C05", "SepticSplineND::propagateGradInternal (DIM > 3 arm): sign of the waypoint-difference term of one right-hand-side row flipped",
           "septic spline, DIM > 3, N >= 2, duration component of the propagated gradient"),
 "S-C06": ("C06", "SepticSplineND::propagateGradInternal (DIM > 3 arm): dP taken from point_diffs_ (opposite sign)",
           "septic spline, DIM > 3, duration component of propagateGrad applied to the energy partials"),
 "S-C07": ("C07", "SplineOptimizer::calculateIntegralCost: crackle sample and the gs.c drift term compiled only for ORDER >= 7",
           "quintic spline and a running cost whose snap gradient is non-zero"),
 "S-C08": ("C08", "SplineOptimizer::calculateIntegralCost: snap and crackle samples computed only for ORDER >= 7, else zero",
           "quintic spline and a running cost that reads snap"),
 "S-C09": ("C09", "SplineOptimizer::evaluate copies the reference waypoints into the workspace only after a re-layout; setInitState refreshes the built-in workspace",
           "a flag switched off between evaluations on the same workspace, or a caller-owned workspace reused with equal N"),
 "S-C10": ("C10", "Workspace::resize returns whether it re-laid out; evaluate copies the reference waypoints only then",
           "caller-owned Workspace shared by two problems with the same segment count and different fixed end points"),
 "S-C11": ("C11", "PPolyND gets hand-written copy operations; operator= does not invalidate the lazily built derivative caches",
           "copy-assignment onto a trajectory that has already been evaluated, then evaluating it again"),
 "S-C12": ("C12", "SplineOptimizer::calculateIntegralCost: segment start times accumulated inside the per-segment callable through a shared running_time",
           "an executor that does not run the indices in ascending order on one thread, and a running cost that depends on global time"),
 "S-C13": ("C13", "SepticSplineND::propagateGradInternal (DIM > 3 arm): waypoint differences hoisted into locals, one right-hand-side row gets the wrong sign",
           "septic spline, DIM >= 4, N >= 2, duration component of propagateGrad"),
 "S-C14": ("C14", "QuinticSplineND::updateCumulativeTimes rewritten with std::partial_sum: the start time reaches knot 0 only",
           "quintic spline with a non-zero start time"),
 "S-C15": ("C15", "SplineOptimizer::operator=: the default-time-map test compares with the destination's own default map, so the copy keeps pointing at the source's",
           "copy assignment from a source that uses its default time map, a stateful TimeMap type, then the source is modified or destroyed"),
 "S-C16": ("C16", "setInitState(time points): the empty-input branch reports the error through reportError and no longer clears the validity flag",
           "time-point overload with an empty vector on an optimizer whose previous initialisation succeeded"),
 "S-C17": ("C17", "QuadInvTimeMap::toTime clamps the duration from below at 1e-9",
           "tau below about -4.5e4 (still inside |tau| <= 1e6)"),
 "S-C19": ("C19", "checkGradients: the closing evaluation at x lost its workspace argument (runs on the built-in workspace)",
           "checkGradients called with a caller-owned workspace whose spline is inspected afterwards"),
 "S-C20": ("C20", "PPolyND::generateTimeSequence: the end-append tolerance became relative to |end_t|",
           "large absolute end time with a last step short by between 1e-6 and 1e-6*|end_t|"),
 "S2-C01": ("C01", "SepticSplineND: precomputeTimePowers reports whether the durations changed and the knot times are only recomputed then",
            "septic spline object updated again with bit-identical durations and a different start time"),
 "S2-C07": ("C07", "SplineOptimizer::evaluate: inner-waypoint gradients are mapped back with backwardGrad(..., point_index - 1)",
            "user spatial map whose Jacobian depends on the waypoint index, N >= 2"),
 "S2-C08": ("C08", "Workspace::resize reports re-allocation; evaluate copies the reference waypoints only then; the setters refresh the built-in workspace only",
            "caller-owned workspace reused with equal N after a fixed end point changed"),
 "S2-C09": ("C09", "SplineOptimizer::operator=: the layout is rebuilt (markLayoutDirty + ensureLayoutCache) before the active spatial map is re-bound",
            "copy assignment between optimizers whose spatial-map instances give different per-point dimensions"),
 "S2-C10": ("C10", "Workspace remembers the last decision vector; evaluate skips spline.update when x is bit-identical",
            "same workspace, same N, identical x, something outside x changed (end point, start time, maps, other optimizer)"),
 "S2-C12": ("C12", "copy constructor / assignment no longer copy the cached layout: the copy starts with a dirty layout cache",
            "a copied optimizer whose first evaluate() calls come from several threads"),
 "S2-C15": ("C15", "SplineOptimizer::operator=: the layout is rebuilt before the active spatial map is re-bound",
            "copy assignment between optimizers whose spatial-map instances give different per-point dimensions"),
 "S2-C16": ("C16", "PPolyND::update fast path: same breakpoint count and order => data copied without the coefficient-row check",
            "an initialised PPolyND updated with the same layout but the wrong number of coefficient rows"),
 "S2-C02": ("C02", "CubicSplineND::solveSpline keeps its divided-difference scratch matrix as a grow-only member; bottomRows() then reads rows left by an earlier, larger problem",
            "the same cubic object solved first with more segments, then reused with fewer (at least 2)"),
 "S2-C03": ("C03", "batch PPolyND::evaluate carries the segment index between samples and treats the current segment as closed on the right",
            "a batch sample exactly on an interior breakpoint, reached from the segment to its left; a derivative order that jumps there"),
 "S2-C04": ("C04", "QuinticSplineND::getEnergy caches its result; the time-point update overload does not drop the cached value",
            "quintic object: getEnergy, then update(t_points, ...), then getEnergy again"),
 "S2-C05": ("C05", "QuinticSplineND::propagateGradInternal skips segments whose upstream coefficient rows pass Eigen's isZero() tolerance test",
            "an upstream gradient with a segment whose entries are all non-zero but below 1e-12"),
 "S2-C06": ("C06", "QuinticSplineND::getEnergyPartialGradByCoeffs (out-parameter overload) only sizes and zeroes the buffer when its row count differs",
            "a reused output buffer of the right size with non-zero rows for powers 0..2"),
 "S2-C11": ("C11", "the spline classes rebuild their PPolyND lazily (dirty flag set by update, rebuild in the accessors)",
            "a reference to getTrajectory() kept across a later update() and evaluated without calling an accessor again"),
 "S2-C13": ("C13", "QuinticSplineND::getEnergyGradInnerPoints rewritten over a strided Eigen::Map of the coefficient storage",
            "DIM == 1 (column-major storage), N >= 2"),
 "S2-C14": ("C14", "QuinticSplineND::solveInternalDerivatives: end-boundary right-hand-side correction moved into the else arm of the first-block test",
            "quintic, N == 2, non-zero end velocity / acceleration (time-reversal symmetry)"),
 "S2-C17": ("C17", "IdentityTimeMap::backward: parameters renamed so that the returned value is the second positional argument (the duration)",
            "SplineOptimizer instantiated with IdentityTimeMap and a duration gradient different from the duration"),
 "S2-C20": ("C20", "batch PPolyND::evaluate carries the segment index between samples and treats the current segment as closed on the right",
            "generateTimeSequence producing a sample exactly on an interior breakpoint (integer knots, dt = 0.5) and a derivative that jumps there"),
 "S3-C01": ("C01", "QuinticSplineND::solveInternalDerivatives: boundary rows refilled from B_left / B_right in index order; the end rows are written only after the early return taken when there is no interior system",
            "quintic spline with exactly one segment and an end velocity / acceleration that differs from what the buffer holds"),
 "S3-C02": ("C02", "SepticSplineND::Inverse3x3: a determinant smaller than DBL_EPSILON in magnitude is replaced by +-DBL_EPSILON before the division",
            "septic spline, N >= 2, durations of about 400 time units or more (determinant ~ h^-9)"),
 "S3-C03": ("C03", "PPolyND::findSegment(t, hint): the incoming hint is clamped into range; the first fast path returns the clamped index without writing it back",
            "hinted evaluation with an out-of-range hint (-1, N, a hint kept across an update to fewer segments) and t in the first / last piece"),
 "S3-C04": ("C04", "SepticSplineND::getEnergy skips segments shorter than 1e-3 instead of non-positive ones",
            "septic spline with a segment duration below 1 ms"),
 "S3-C05": ("C05", "QuinticSplineND::propagateGradInternal: both boundary corrections computed in place in the multiplier workspace",
            "quintic spline with exactly N = 2 segments (first and last block are the same rows)"),
 "S3-C06": ("C06", "CubicSplineND::getEnergyGradBoundary evaluates the end acceleration / jerk through trajectory_.evaluate(getDuration(), ...) instead of the end time",
            "cubic spline with a non-zero start time"),
 "S3-C07": ("C07", "explicit-time gradient buffer zeroed in Workspace::resize only; calculateIntegralCost no longer clears it per call",
            "a running cost with explicit global-time dependence, N >= 2, second or later evaluate() on the same workspace"),
 "S3-C08": ("C08", "calculateIntegralCost: segment start times derived inside the per-segment callable from the previous segment's slot",
            "an executor that does not visit the segments in ascending order, N >= 2, a running cost that uses global time, durations changed since the last evaluation"),
 "S3-C09": ("C09", "setOptimizationFlags rebuilds the cached layout only when a layout-relevant flag changed; the comparison leaves out end_j",
            "septic spline and a setOptimizationFlags call that differs from the held flags in end_j only"),
 "S3-C11": ("C11", "PPolyND keeps its derivative tables behind a std::shared_ptr that is refilled in place; implicit copies share the table",
            "source evaluated before it is copied; one of the two objects updated and evaluated; the other evaluated afterwards"),
 "S3-C12": ("C12", "calculateIntegralCost: for SerialExecutor the segment costs are summed into a local inside the callable and added once",
            "evaluate() with an executor type other than SerialExecutor compared bit for bit with the serial result, non-zero time cost"),
 "S3-C13": ("C13", "SepticSplineND::propagateGradInternal (DIM <= 3 arm): the per-coordinate loop breaks at the first coordinate whose multipliers are all zero",
            "septic, DIM 2 or 3, N >= 2, an upstream gradient whose column is exactly zero for one coordinate and non-zero for a later one"),
 "S3-C14": ("C14", "SepticSplineND::propagateGradInternal (DIM > 3 arm): dP taken from the cached point differences (opposite sign)",
            "septic, DIM >= 4, duration gradient obtained through propagateGrad (time reversal: mirrored gradients)"),
 "S3-C15": ("C15", "SplineOptimizer gains defaulted move constructor and move assignment",
            "an rvalue source that uses its own default maps (returned temporary, std::move, vector growth), then the source is destroyed"),
 "S3-C16": ("C16", "SplineOptimizer::checkValidity: the waypoint finiteness loop merged into the loop over durations (row N is never inspected)",
            "a non-finite value in the last waypoint row, everything else valid"),
 "S3-C17": ("C17", "QuadInvTimeMap::toTime / backward use exp(tau) for tau <= 0; toTau still inverts the rational branch",
            "a round trip through both directions of the map with a duration below 1"),
 "S3-C19": ("C19", "two-cost checkGradients forwards (..., tol, eps) instead of (..., eps, tol)",
            "two-cost overload with non-default eps / tol, or default arguments with a stiff cost"),
 "S3-C20": ("C20", "PPolyND::getTrajectoryLength(dt) caches its result per step size behind the derivative-table ready flag",
            "length query, update with other coefficients, an evaluate(), then the same length query again"),
 "S4-C01": ("C01", "CubicSplineND::update(t_points, ...) forwards to the durations overload with the member boundary_velocities_ instead of its parameter",
            "cubic spline updated through the time-point overload with boundary velocities that differ from the stored ones"),
 "S4-C02": ("C02", "convertTimePointsToSegments (all three classes) rewritten with std::adjacent_difference over [t1, end): the first duration becomes t1",
            "a spline built or updated from absolute knot times whose first knot is not 0"),
 "S4-C03": ("C03", "PPolyND::buildDynamicDerivativeFactorTable: rows beyond the static table extended by f(n,k) = n f(n-1,k-1) with k < n instead of k <= n",
            "more than 8 coefficients per piece and a derivative order >= 8 (the diagonal n! is left 0)"),
 "S4-C04": ("C04", "CubicSplineND::getEnergy sums the segments pairwise; the recursive split is [first, mid) + [mid + 1, last)",
            "cubic spline with more than 32 segments"),
 "S4-C05": ("C05", "CubicSplineND::propagateGradInternal: the scatter of the system-row term written as an if / else-if chain on k == 0 / k == n-1",
            "cubic spline with exactly one segment (first and last at once): end.p loses a term"),
 "S4-C07": ("C07", "SepticSplineND::propagateGradInternal (DIM > 3 arm): waypoint differences hoisted into locals, one right-hand-side row gets the wrong sign",
            "optimizer over a septic spline with DIM > 3, N >= 2 and a non-zero running cost"),
 "S4-C08": ("C08", "evaluate(): the waypoint-cost block wrapped in if (!spatial_layout_.empty())",
            "one segment, start_p and end_p both false, a non-void waypoint cost"),
 "S4-C09": ("C09", "generateInitialGuess writes the boundary-derivative blocks grouped by order (start_v, end_v, start_a, ...) instead of start-then-end",
            "order >= 5 with a start flag of order >= 2 together with an end flag of lower order"),
 "S4-C11": ("C11", "PPolyND::initializeInternal: helper extraction; the reject path no longer drops the derivative tables and the accept path drops them only if is_initialized_",
            "valid update, an evaluation, a rejected update, a valid update, an evaluation"),
 "S4-C13": ("C13", "CubicSplineND::update(durations, ...) returns early when the problem matches the stored one, waypoints and velocities compared with isApprox()",
            "second update on an initialised object, identical durations, a coordinate changed by less than 1e-12 of the norm of the whole waypoint matrix"),
 "S4-C14": ("C14", "CubicSplineND::getEnergyGradInnerPoints rewritten over a strided Eigen::Map of the coefficient storage",
            "cubic, DIM == 1 (column-major storage), N >= 2: the view reaches c_0 rows"),
 "S4-C16": ("C16", "PPolyND::initializeInternal: reject blocks merged into a helper; the first guard became breakpoints.empty()",
            "exactly one breakpoint and a coefficient matrix with zero rows (zero() / constant() with one breakpoint)"),
 "S4-C20": ("C20", "getTrajectoryLength: speed taken from a helper that returns velocity(0) for DIM == 1",
            "one-dimensional trajectory with negative velocity at some left sample"),
 "S5-C02": ("C02", "CubicSplineND: the tridiagonal factorisation is reused when update(durations, ...) sees unchanged durations; update(t_points, ...) never clears the flag",
           "one cubic object: update(durations) with the durations it holds, then update(t_points) with another time allocation"),
 "S5-C05": ("C05", "QuinticSplineND: adjoint back-substitution factors built on demand in propagateGradInternal and treated as current when their row count matches",
           "quintic, N >= 3, propagateGrad, then update() to the same N with other durations, then propagateGrad again"),
 "S5-C07": ("C07", "calculateIntegralCost: a sample whose running cost is exactly 0 is skipped (continue) before its gradient terms are accumulated",
           "a running cost that vanishes with non-zero partials exactly at a sample, e.g. c = p.z with a waypoint at z = 0"),
 "S5-C08": ("C08", "calculateIntegralCost: the end-point weight test k == 0 || k == K replaced by a test on alpha = k * (1.0 / K) being strictly inside (0, 1)",
           "integration step counts K for which K * (1.0 / K) != 1.0 in double arithmetic (49, 98, 103, 107, ...)"),
 "S5-C09": ("C09", "setInitState(time points): durations computed by std::adjacent_difference over [t1, end), whose first output is t1 itself",
           "time-point overload with a first time point different from 0"),
 "S5-C10": ("C10", "CubicSplineND: start_time_ set in the time-point constructor's initialiser list instead of convertTimePointsToSegments, which update(t_points) shares",
           "cubic object reused through update(t_points, ...) with a first time point different from its previous start time"),
 "S5-C11": ("C11", "PPolyND: derivative tables packed into one buffer with per-order offsets that are recomputed only when the total row count changes",
           "a PPolyND evaluated, then updated to another (segments, coefficients) shape with the same packed row total (3 x 4 -> 5 x 3)"),
 "S5-C14": ("C14", "SepticSplineND::precomputeTimePowers takes the segment duration from differences of the knot times",
           "septic spline with a non-zero (large) start time"),
 "S5-C16": ("C16", "checkValidity: the per-duration loop runs only when std::minmax_element finds a non-finite or too small extreme",
           "a NaN duration at an interior index of at least three durations"),
 "S5-C19": ("C19", "checkGradients: valid = (analytical - numerical).maxCoeff() < tol (signed maximum instead of the error norm)",
           "a user gradient that is too small (negative error) in every wrong component"),
 "S6-C06": ("C06", "SepticSplineND::propagateGradInternal, DIM > 3 branch: d c7 / d h folded into node-state pairs with (J_curr - J_next) where the row has -4 J_curr - 4 J_next",
           "septic spline in 4 or more dimensions with non-zero jerk at a segment's right node (N >= 2, or N = 1 with end jerk); the 3-D tests use the scalar branch"),
 "S6-C12": ("C12", "calculateIntegralCost: the serial prefix-sum loop over segment start times fused into the per-segment lambda (running_time captured by reference, advanced by T)",
           "an executor that visits segments in any order but 0..N-1 (or in parallel: data race) and an integral cost that reads t_global"),
 "S6-C15": ("C15", "copy assignment re-binds active_time_map_ / active_spatial_map_ only when the source references a user map",
           "assignment over an optimizer that references a user map from a source that uses its default maps"),
 "S6-C17": ("C17", "QuadInvTimeMap::toTau returns the first-order series T - 1 for |T - 1| < 1e-4",
           "a duration within 1e-4 of 1 (not equal to 1): toTau is no longer the inverse of toTime there and steps backwards at the window's edges"),
}
EXTRA = os.path.join(V, "seeded", "extra_meta.json")
if os.path.exists(EXTRA):
    for k, v in json.load(open(EXTRA)).items():
        T[k] = tuple(v)
for sid in sorted(os.listdir(os.path.join(V, "seeded"))):
    d = os.path.join(V, "seeded", sid)
    if not os.path.isdir(d) or sid not in T:
        continue
    prop, change, needs = T[sid]
    meta = {"property": prop, "change": change, "needs_to_manifest": needs, "origin": "written by a sub-agent that saw only the property text and a scratch worktree of /repo"}
    cf = os.path.join(d, "confirm.json")
    if os.path.exists(cf):
        c = json.load(open(cf))
        meta["confirmed"] = c["confirmed"]
        meta["what_was_run"] = ("tools/confirm_seed.sh %s: fresh worktree of /repo HEAD under /tmp; demo built with g++ -std=c++17 -O1 %s and run on the unchanged tree (exit %d) and with patch.diff applied (exit %d); "
                                "cmake+ninja Release build of the repository's tests with the patch (rc %d) and all 9 test programs run (%d problems, the two known-flaky '(Times)' sub-tests not counted); worktree removed" % (
                                    sid, c.get("demo_flags", ""), c["demo_clean_rc"], c["demo_patched_rc"], c["tests_build_rc"], c["test_problems"]))
    dt = os.path.join(d, "detection.json")
    if os.path.exists(dt):
        r = json.load(open(dt))
        meta["checks_reporting_violation"] = {p: v["rules"] for p, v in sorted(r.items()) if v["rc"] == 1}
        meta["checks_analysis_broken"] = sorted(p for p, v in r.items() if v["rc"] == 2)
        meta["checks_passing"] = sorted(p for p, v in r.items() if v["rc"] == 0)
    json.dump(meta, open(os.path.join(d, "meta.json"), "w"), indent=1, sort_keys=True)
    print(sid, meta.get("confirmed"), meta.get("checks_reporting_violation"), meta.get("checks_analysis_broken"))

# behaviour-preserving refactorings: fold the latest detection run into their meta.json
bd = os.path.join(V, "benign")
for sid in sorted(os.listdir(bd)) if os.path.isdir(bd) else []:
    d = os.path.join(bd, sid)
    mp, dt = os.path.join(d, "meta.json"), os.path.join(d, "detection.json")
    if not (os.path.exists(mp) and os.path.exists(dt)):
        continue
    meta = json.load(open(mp))
    r = json.load(open(dt))
    meta["checks_reporting_violation"] = {p: v["rules"] for p, v in sorted(r.items()) if v["rc"] == 1}
    meta["checks_analysis_broken"] = sorted(p for p, v in r.items() if v["rc"] == 2)
    meta["checks_analysis_broken_reason"] = {p: v["first"][:200] for p, v in sorted(r.items()) if v["rc"] == 2}
    meta["checks_passing"] = sorted(p for p, v in r.items() if v["rc"] == 0)
    json.dump(meta, open(mp, "w"), indent=1, sort_keys=True)
