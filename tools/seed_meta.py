#!/usr/bin/env python3
"""(Re)writes seeded/<id>/meta.json from the hand-written table below, confirm.json (what tools/confirm_seed.sh ran
and saw) and detection.json (what tools/seeded.py saw)."""
import json, os
V = os.path.dirname(os.path.dirname(os.path.abspath(__file__)))
T = {
 "S-C01": ("C01", "QuinticSplineND::convertTimePointsToSegments rewritten with std::adjacent_difference: first duration becomes t1 instead of t1 - t0",
           "quintic spline built/updated from absolute time points whose first time point is not 0"),
 "S-C02": ("C02", "QuinticSplineND::solveInternalDerivatives: the end-boundary right-hand-side correction moved into the else arm of the first-block test",
           "quintic, exactly N = 2 segments, non-zero end velocity or acceleration"),
 "S-C03": ("C03", "PPolyND::findSegment: lower bound dropped from the hinted 'next piece' fast path",
           "hinted evaluation with a stale but valid hint that lies later than the piece containing t"),
 "S-C04": ("C04", "CubicSplineND::getEnergy rewritten over strided Eigen::Map views of the coefficient storage",
           "cubic spline with DIM == 1 (column-major storage) and N >= 2"),
 "S-C05": ("C05", "SepticSplineND::propagateGradInternal (DIM > 3 arm): sign of the waypoint-difference term of one right-hand-side row flipped",
           "septic spline, DIM > 3, N >= 2, duration component of the propagated gradient"),
 "S-C06": ("C06", "SepticSplineND::propagateGradInternal (DIM > 3 arm): dP taken from point_diffs_ (opposite sign)",
           "septic spline, DIM > 3, duration component of propagateGrad applied to the energy partials"),
 "S-C07": ("C07", "SplineOptimizer::calculateIntegralCost: crackle sample and the gs.c drift term compiled only for ORDER >= 7",
           "quintic spline and a running cost whose snap gradient is non-zero"),
 "S-C08": ("C08", "SplineOptimizer::calculateIntegralCost: snap and crackle samples computed only for ORDER >= 7, else zero",
           "quintic spline and a running cost that reads snap"),
 "S-C09": ("C09", "SplineOptimizer::evaluate copies the reference waypoints into the workspace only after a re-layout; setInitState refreshes the built-in workspace",
           "a flag switched off between evaluations on the same workspace, or a caller-owned workspace reused with equal N"),
 "S-C10": ("C10", "Workspace::resize returns whether it re-laid out; evaluate copies the reference waypoints only then",
           "caller-owned Workspace shared by two problems with the same segment count and different fixed end points"),
 "S-C11": ("C11", "PPolyND gets hand-written copy operations; operator= does not invalidate the lazily built derivative caches",
           "copy-assignment onto a trajectory that has already been evaluated, then evaluating it again"),
 "S-C12": ("C12", "SplineOptimizer::calculateIntegralCost: segment start times accumulated inside the per-segment callable through a shared running_time",
           "an executor that does not run the indices in ascending order on one thread, and a running cost that depends on global time"),
 "S-C13": ("C13", "", ""), "S-C14": ("C14", "", ""), "S-C15": ("C15", "", ""), "S-C16": ("C16", "", ""), "S-C17": ("C17", "", ""), "S-C19": ("C19", "", ""), "S-C20": ("C20", "", ""),
}
EXTRA = os.path.join(V, "seeded", "extra_meta.json")
if os.path.exists(EXTRA):
    for k, v in json.load(open(EXTRA)).items():
        T[k] = tuple(v)
for sid in sorted(os.listdir(os.path.join(V, "seeded"))):
    d = os.path.join(V, "seeded", sid)
    if not os.path.isdir(d) or sid not in T:
        continue
    prop, change, needs = T[sid]
    meta = {"property": prop, "change": change, "needs_to_manifest": needs, "origin": "written by a sub-agent that saw only the property text and a scratch worktree of /repo"}
    cf = os.path.join(d, "confirm.json")
    if os.path.exists(cf):
        c = json.load(open(cf))
        meta["confirmed"] = c["confirmed"]
        meta["what_was_run"] = ("tools/confirm_seed.sh %s: fresh worktree of /repo HEAD under /tmp; demo built with g++ -std=c++17 -O1 %s and run on the unchanged tree (exit %d) and with patch.diff applied (exit %d); "
                                "cmake+ninja Release build of the repository's tests with the patch (rc %d) and all 9 test programs run (%d problems, the two known-flaky '(Times)' sub-tests not counted); worktree removed" % (
                                    sid, c.get("demo_flags", ""), c["demo_clean_rc"], c["demo_patched_rc"], c["tests_build_rc"], c["test_problems"]))
    dt = os.path.join(d, "detection.json")
    if os.path.exists(dt):
        r = json.load(open(dt))
        meta["checks_reporting_violation"] = {p: v["rules"] for p, v in sorted(r.items()) if v["rc"] == 1}
        meta["checks_analysis_broken"] = sorted(p for p, v in r.items() if v["rc"] == 2)
        meta["checks_passing"] = sorted(p for p, v in r.items() if v["rc"] == 0)
    json.dump(meta, open(os.path.join(d, "meta.json"), "w"), indent=1, sort_keys=True)
    print(sid, meta.get("confirmed"), meta.get("checks_reporting_violation"), meta.get("checks_analysis_broken"))
