#!/bin/sh
# import a sub-agent's behaviour-preserving refactorings: tools/import_benign.sh B5
B="$1"; W="/tmp/bn-$B"
for k in 1 2 3 4 5; do
  [ -s "$W/out/refactor_$k.diff" ] || continue
  D="/verif/benign/$B-$k"; mkdir -p "$D"
  cp "$W/out/refactor_$k.diff" "$D/patch.diff"
  [ -f "$W/out/refactor_$k.txt" ] && cp "$W/out/refactor_$k.txt" "$D/README.txt"
  python3 - "$D" "$B-$k" <<'PY'
import json, sys, os
d, sid = sys.argv[1], sys.argv[2]
desc = open(os.path.join(d, "README.txt")).read().strip().replace("\n", " ")[:600] if os.path.exists(os.path.join(d, "README.txt")) else ""
json.dump({"kind": "behaviour-preserving refactoring", "change": desc, "origin": "written by a sub-agent that saw only the library (scratch worktree), verified there with the test suite and a full-precision comparison program"}, open(os.path.join(d, "meta.json"), "w"), indent=1)
PY
done
mkdir -p /verif/benign/cmp; [ -f "$W/cmp/cmp.cpp" ] && cp "$W/cmp/cmp.cpp" "/verif/benign/cmp/cmp_$B.cpp"
ls /verif/benign | grep "^$B"
