#!/usr/bin/env python3
"""Behaviour-preserving probe: rename one private member (or workspace / helper-struct field) at a time in a scratch copy of
the headers and run the checks that read that header.  Every check must still pass (exit 0); exit 2 means a rule still
finds its anchor by name, exit 1 would be a false alarm.
usage: python3-vt tools/rename_sweep.py [--jobs N] [name ...]"""
import json, os, re, shutil, subprocess, sys, tempfile
from concurrent.futures import ThreadPoolExecutor
VERIF = os.path.dirname(os.path.dirname(os.path.abspath(__file__)))
sys.path.insert(0, VERIF)
from sa import mutate
from sa.facts import load

PUBLIC = {"p", "v", "a", "j", "start", "end", "times", "inner_points", "analytical", "numerical", "error_norm", "rel_error", "valid",
          "start_p", "end_p", "start_v", "end_v", "start_a", "end_a", "start_j", "end_j",
          "start_velocity", "end_velocity", "start_acceleration", "end_acceleration", "start_jerk", "end_jerk", "seg", "idx_", "parent_", "ptr_"}


def candidates():
    F = load("/repo", "wit_quick.cpp", ())
    out = set()
    for rn, rec in F.records.items():
        if not rn.startswith("SplineTrajectory::"):
            continue
        hdr = rec["file"].split("/")[-1]
        for f in rec["fields"]:
            if f["name"] not in PUBLIC:
                out.add((f["name"], hdr))
    return sorted(out)


def one(item):
    name, hdr = item
    d = tempfile.mkdtemp(prefix="stxren-")
    try:
        shutil.copytree("/repo/include", os.path.join(d, "include"))
        p = os.path.join(d, "include", hdr)
        s = open(p).read()
        new = ("renamed_" + name) if name.endswith("_") else (name + "_renamed")
        if name[0].isupper() or name[0].islower() and not name.endswith("_") and (name, hdr) in PRIVATE_FUNCTIONS:
            new = "renamed" + name[0].upper() + name[1:]      # a prefix: rules must not rely on how a name starts either
        s2 = re.sub(r"\b%s\b" % re.escape(name), new, s)
        open(p, "w").write(s2)
        r = subprocess.run(["clang++", "-std=gnu++17", "-fsyntax-only", "-I" + os.path.join(d, "include"), "-I/usr/include/eigen3", os.path.join(VERIF, "wit", "wit_quick.cpp")],
                           capture_output=True, text=True)
        if r.returncode != 0:
            return item, "does-not-compile", {}
        res = {}
        for pid in sorted(mutate.READS[hdr]):
            if not os.path.exists(os.path.join(VERIF, "sa", "props", pid.lower() + ".py")):
                continue
            rr = subprocess.run([sys.executable, os.path.join(VERIF, "sa", "check.py"), pid, "--root", d, "--no-evidence"], capture_output=True, text=True, cwd=VERIF)
            if rr.returncode != 0:
                last = [l for l in rr.stdout.splitlines() if "rule=" in l or "BROKEN" in l]
                res[pid] = (rr.returncode, (last[0].strip()[:260] if last else ""))
        return item, "ok", res
    finally:
        shutil.rmtree(d, ignore_errors=True)


PRIVATE_FUNCTIONS = [("propagateGradInternal", "SplineTrajectory.hpp"), ("solveInternalDerivatives", "SplineTrajectory.hpp"), ("updateSplineInternal", "SplineTrajectory.hpp"),
                     ("convertTimePointsToSegments", "SplineTrajectory.hpp"), ("precomputeTimePowers", "SplineTrajectory.hpp"), ("updateCumulativeTimes", "SplineTrajectory.hpp"),
                     ("precomputePointDiffs", "SplineTrajectory.hpp"), ("initializeInternal", "SplineTrajectory.hpp"), ("buildDerivativeCoefficients", "SplineTrajectory.hpp"),
                     ("evaluateSegmentHorner", "SplineTrajectory.hpp"), ("invalidateDerivativeCaches", "SplineTrajectory.hpp"), ("solveSpline", "SplineTrajectory.hpp"),
                     ("Inverse3x3", "SplineTrajectory.hpp"), ("setBlock3x3", "SplineTrajectory.hpp"), ("initializePPoly", "SplineTrajectory.hpp"),
                     ("checkValidity", "SplineOptimizer.hpp"), ("rebuildLayoutCache", "SplineOptimizer.hpp"), ("ensureLayoutCache", "SplineOptimizer.hpp"), ("markLayoutDirty", "SplineOptimizer.hpp"),
                     ("calculateIntegralCost", "SplineOptimizer.hpp"), ("getOrCreateInternalWorkspace", "SplineOptimizer.hpp"), ("reportError", "SplineOptimizer.hpp"),
                     ("isSpatialOptimized", "SplineOptimizer.hpp"), ("countOptimizedDerivativeBlocks", "SplineOptimizer.hpp"), ("calculateDimension", "SplineOptimizer.hpp")]


if __name__ == "__main__":
    if "--functions" in sys.argv:
        def all_private_functions():
            from sa.facts import load
            F = load("/repo", "wit_quick.cpp", ())
            found = {(f["name"], f["file"]) for f in F.functions if f.get("kind") == "method" and f.get("access") != "public"
                     and str(f.get("cls", "")).startswith("SplineTrajectory::") and f["name"].isidentifier()}
            return sorted(found | set(PRIVATE_FUNCTIONS))
        candidates = all_private_functions
        PRIVATE_FUNCTIONS_ALL = all_private_functions()
        PRIVATE_FUNCTIONS[:] = PRIVATE_FUNCTIONS_ALL
        sys.argv.remove("--functions")
    args = [a for a in sys.argv[1:] if not a.startswith("--")]
    jobs = int(next((a.split("=")[1] for a in sys.argv[1:] if a.startswith("--jobs=")), "4"))
    items = [c for c in candidates() if not args or c[0] in args]
    print("%d renames" % len(items), flush=True)
    with ThreadPoolExecutor(max_workers=jobs) as ex:
        for item, st, res in ex.map(one, items):
            if st != "ok":
                print("%s (%s): %s" % (item[0], item[1], st), flush=True)
            elif not res:
                print("%s (%s): all checks pass" % item, flush=True)
            else:
                print("%s (%s): %s" % (item[0], item[1], "; ".join("%s rc=%d %s" % (k, v[0], v[1]) for k, v in sorted(res.items()))), flush=True)
