#!/bin/sh
# tools/trypatch.sh <dir>/<id> <PROP> [extra check.py args]: run one check against one kept patch (scratch copy, removed afterwards)
P="$1"; shift; PROP="$1"; shift
T=$(mktemp -d /tmp/stxtry-XXXXXX); cp -r /repo/include "$T/"; patch -p1 -s -d "$T" -i "/verif/$P/patch.diff" || exit 3
python3-vt /verif/sa/check.py "$PROP" --root "$T" --no-evidence "$@"; rc=$?
rm -rf "$T"; exit $rc
