#!/bin/sh
# import a sub-agent's seeded change from its scratch worktree: tools/import_seed.sh C08
P="$1"; W="/tmp/wt-$P"; D="/verif/seeded/S-$P"
mkdir -p "$D"
git -C "$W" diff -- include > "$D/patch.diff"
cp "$W/demo/demo.cpp" "$D/demo.cpp"
[ -f "$W/demo/README.txt" ] && cp "$W/demo/README.txt" "$D/README.txt"
[ -f "$D/meta.json" ] || echo "{\"property\": \"$P\"}" > "$D/meta.json"
wc -l "$D/patch.diff" "$D/demo.cpp"
