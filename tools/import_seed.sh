#!/bin/sh
# import a sub-agent's seeded change from its scratch worktree: tools/import_seed.sh C08 [worktree-prefix=wt] [seed-prefix=S]
P="$1"; WP="${2:-wt}"; SP="${3:-S}"; W="/tmp/$WP-$P"; D="/verif/seeded/$SP-$P"
mkdir -p "$D"
git -C "$W" diff -- include > "$D/patch.diff"
cp "$W/demo/demo.cpp" "$D/demo.cpp"
[ -f "$W/demo/README.txt" ] && cp "$W/demo/README.txt" "$D/README.txt"
[ -f "$D/meta.json" ] || echo "{\"property\": \"$P\"}" > "$D/meta.json"
wc -l "$D/patch.diff" "$D/demo.cpp"
