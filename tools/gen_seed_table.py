#!/usr/bin/env python3
"""Prints the Markdown tables of DESIGN.md Appendix B: which checks catch which sub-agent-written changes
(seeded/<id>/meta.json) and what the checks say about the behaviour-preserving refactorings (benign/<id>/meta.json)."""
import json, os
V = os.path.dirname(os.path.dirname(os.path.abspath(__file__)))
print("| change | breaks | what was changed | needs, to manifest | confirmed (demo fails with / passes without, tests pass) | checks reporting a violation (rules) | analysis-broken (exit 2) |")
print("|---|---|---|---|---|---|---|")
for sid in sorted(os.listdir(os.path.join(V, "seeded"))):
    mp = os.path.join(V, "seeded", sid, "meta.json")
    if not os.path.exists(mp):
        continue
    m = json.load(open(mp))
    viol = "; ".join("%s (%s)" % (p, ", ".join(r)) for p, r in sorted(m.get("checks_reporting_violation", {}).items())) or "none"
    print("| %s | %s | %s | %s | %s | %s | %s |" % (sid, m.get("property"), m.get("change", ""), m.get("needs_to_manifest", ""), "yes" if m.get("confirmed") else "NO", viol,
                                              ", ".join(m.get("checks_analysis_broken", [])) or "-"))
bd = os.path.join(V, "benign")
if os.path.isdir(bd):
    print()
    print("| refactoring | what was changed | checks raising a (false) alarm | analysis-broken (exit 2) | passing |")
    print("|---|---|---|---|---|")
    for sid in sorted(os.listdir(bd)):
        mp = os.path.join(bd, sid, "meta.json")
        if not os.path.exists(mp):
            continue
        m = json.load(open(mp))
        viol = "; ".join("%s (%s)" % (p, ", ".join(r)) for p, r in sorted(m.get("checks_reporting_violation", {}).items())) or "none"
        br = "; ".join("%s (%s)" % (p_, (m.get("checks_analysis_broken_reason", {}).get(p_, "") or "").replace("ANALYSIS-BROKEN property=%s " % p_, "")[:90].replace("|", "/")) for p_ in m.get("checks_analysis_broken", [])) or "-"
        print("| %s | %s | %s | %s | %d |" % (sid, m.get("change", "").replace("|", "/")[:260], viol, br, len(m.get("checks_passing", []))))
