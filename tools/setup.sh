#!/bin/sh
# MANIFEST.setup_cmd: build the fact extractor and byte-compile the analysers (offline).
set -e
cd "$(dirname "$0")/.."
mkdir -p build .cache evidence
if [ ! -x build/stx ] || [ stx/stx.cc -nt build/stx ]; then
  clang++ $(llvm-config-14 --cxxflags) -fno-rtti -O1 stx/stx.cc -o build/stx.tmp \
      /usr/lib/llvm-14/lib/libclang-cpp.so.14 /usr/lib/llvm-14/lib/libLLVM-14.so
  mv build/stx.tmp build/stx
fi
python3-vt -m compileall -q sa >/dev/null
# warm the fact cache for the current tree (each check would otherwise do it on first use)
python3-vt -c "import sys; sys.path.insert(0,'.'); from sa import facts; facts.load('/repo'); print('facts ready')"
