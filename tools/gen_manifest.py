#!/usr/bin/env python3
"""Regenerates /verif/MANIFEST.json from the table below (kept valid at all times).

A property is listed under `checks` only once its checker module exists in sa/props and is
named in READY; everything else is listed under not_applicable with the reason.
"""
import json
import os

VERIF = os.path.dirname(os.path.dirname(os.path.abspath(__file__)))

READY = [l.strip() for l in open(os.path.join(VERIF, "tools", "ready.txt")) if l.strip() and not l.startswith("#")]

P = {
 "C01": dict(cat="proof", tech="algebraic summaries of the closure/time-bookkeeping code (abstract interpretation in rational functions; array contents as index-range pieces checked by induction; single-segment path replayed with N = 1) + provenance interpretation of the entry points, incl. data-dependent skip guards",
   text="Hermite closure of every segment polynomial, pinned boundary rows, knot-time bookkeeping and constructor routing are proved as identities/structural facts on the instantiated AST for all N, DIM and positive durations in exact arithmetic.",
   note="exact real arithmetic; floating-point equality of left/right limits not decided; Eigen op semantics trusted"),
 "C02": dict(cat="proof", tech="algebraic summaries: row space of the assembled block rows == continuity jumps; solver unified with (block) Thomas, once per outcome of history-dependent size guards; closed-form inverses checked entrywise on every path (exact witness refutation on guarded paths)",
   text="The linear system is shown to be the continuity system of the closure polynomials and the elimination to be exact (block) Thomas, for all N (N=1, N=2 paths included), exact arithmetic.",
   note="minimiser characterisation (Schoenberg / MINCO Thm 2) and exactness of Thomas recurrences trusted; pivots nonsingular; rounding not decided (C18)"),
 "C03": dict(cat="proof", tech="structural/path rules on the lookup and evaluator funnel + comparison-shape normalisation + compile-time witnesses for the factor table",
   text="All evaluation routes funnel into one Horner routine with a right-continuous clamped lookup; hint post-condition on every return path; derivative builders use the same falling factorials.",
   note="'identical value' decided as 'same operation sequence on the same operands'; NaN times outside the quantifier"),
 "C04": dict(cat="proof", tech="algebraic summary of the energy loop compared with symbolically generated Gram matrices",
   text="Per-segment energy increment equals the integral of the squared s-th derivative of the published coefficient rows as a polynomial identity; loop covers all segments.",
   note="exact arithmetic; rounding ('non-negative up to rounding') not decided"),
 "C05": dict(cat="proof", tech="algebraic summaries: adjoint tables vs symbolic derivatives of the code's own forward summaries; transposed-solve sweeps read by block offset; N = 1 and N = 2 replayed with concrete sizes (index aliasing included); effect analysis for linearity/history-freedom",
   text="Local pull-back tables, duration terms, system-derivative tables, transposed solve and boundary corrections equal the reverse-mode derivative of the forward summaries.",
   note="exact arithmetic; nonsingular pivots; Lagrangian adjoint identity (DESIGN s5.4) trusted after self-check"),
 "C06": dict(cat="proof", tech="algebraic summaries of the six energy-gradient getters vs first-variation / conserved-quantity formulas generated symbolically",
   text="dE/dC, dE/dT partials and the closed-form total gradients equal derivatives of the C04 energy form under the closure/continuity constraints.",
   note="exact arithmetic; relies on C02 (spline is the minimiser)"),
 "C07": dict(cat="proof", tech="algebraic summary of the quadrature lambda differentiated symbolically + algebraic summary of evaluate() per flag assignment (abstract interpretation with opaque functors/maps; decode, propagation inputs, completed gradient struct, grad_out formulas) + liveness of gradient buffers + no quadrature guard on a data value",
   text="The gradient assembly is the chain rule applied to the extracted cost expression: quadrature derivative terms, assembly order, complete energy accumulation, layout-consistent back-substitution.",
   note="user functors/maps opaque and assumed to return true partials; exact arithmetic"),
 "C08": dict(cat="proof", tech="returned cost expression from the algebraic summary of evaluate() per flag assignment / sign of the energy weight + algebraic summaries of sample arguments, basis rows and trapezoid weights",
   text="The returned scalar receives exactly the four specified addends; sample arguments, basis rows and weights match the trapezoid definition.",
   note="exact arithmetic; user functors opaque"),
 "C09": dict(cat="proof", tech="abstract interpretation of the layout builder, getDimension, generateInitialGuess and evaluate() per assignment of the configuration flags (content of the layout, slots written, what reaches spline.update, grad_out formulas) + write->dirty typestate + pointer-provenance interpretation of the copy operations + abstract interpretation of the time-point overload of setInitState (forwarded durations = consecutive differences)",
   text="Layout formulas, agreement of the three traversals, dirty marking by every writer of layout inputs, pinning and the exposed spline.",
   note="map protocol honoured by user maps; round trip also needs C17"),
 "C10": dict(cat="proof", tech="region definedness (def-before-use of persistent buffers per operation) replayed on the index skeleton of the summaries + path-sensitive whole-definition dataflow of the optimizer workspace buffers per evaluation + scenario interpretation of Workspace::resize + write-set rules over the update overloads (the four inputs stored, member flags set by every overload that branches on them) + no content computed only past an early return on a left-over buffer size",
   text="Every persistent buffer region read in an operation is defined earlier in the same operation; query write-sets are dead state.",
   note="bit-identity concluded from 'same operations on same operands' (IEEE determinism)"),
 "C11": dict(cat="proof", tech="typestate dataflow: write->invalidate must-pass-through, ensure-before-read dominance, hand-over ordering + no part of a cache rebuilt only under a test of a left-over buffer size",
   text="Every path writing the lazily-cached inputs invalidates before exit; every cache read is dominated by its ensure; every spline mutator hands the fresh arrays to the trajectory.",
   note="value-type members cannot alias (C15-R4)"),
 "C12": dict(cat="proof", tech="effect isolation of the per-segment lambda (index-injective footprints), serial reductions, const-path write enumeration with layout-cache typestate",
   text="Lambda footprints are disjoint across segment indices, reductions are outside the executor, and const entry points write no shared state.",
   note="user functors/maps assumed re-entrant; data-race definition of the C++ memory model"),
 "C13": dict(cat="proof", tech="coordinate-uniformity effect system (incl. early exits from coordinate loops) + taint (data never reaches factor caches) + DIM-branch summary agreement + raw-storage views resolved to row maps and DIM special cases compared in a one-coordinate model across instantiations + taint of run-time conditions by cross-coordinate reductions",
   text="Vector data only flows through coordinate-uniform operations; scalar factorisations are data independent; the two DIM branches of the septic adjoint agree.",
   note="parametricity over DIM within {1},{2,3},{4..10}"),
 "C14": dict(cat="proof", tech="taint of the start time, zero-sum/difference-form and weighted-homogeneity (units) inference on algebraic summaries, mirror symmetry of blocks, row residues of coefficient reads (index arithmetic and raw views), minimiser and adjoint premises re-derived from the solver / adjoint summaries",
   text="Necessary conditions of the four invariances as degree/weight/symmetry facts on the summaries; sufficiency via C02.",
   note="exact arithmetic"),
 "C15": dict(cat="proof", tech="pointer-provenance / ownership abstract interpretation of the copy operations and setters, once per alias configuration of the source and, for assignment, of the destination's prior state (each re-bindable pointer at the own default vs a caller's map, workspace present or not, self-assignment) + declared move operations (rvalue sources) + value-class member typing on the instantiated AST",
   text="Aliasing after copy is decided from types and assignments alone, hence for every history of copies, assignments, mutation and destruction.",
   note="C++ object semantics; last_error_message_ is a reasoned exception"),
 "C16": dict(cat="proof", tech="extraction and normalisation of the rejection predicates; verdict/message typestate; PPolyND rejection-path state; compile-time witness for the threshold",
   text="Set of rejection predicates equals the specified set, threshold constant and strictness, verdict/message coherence on every path, PPolyND rejection paths and at() bounds.",
   note="std::isfinite semantics under the build flags not decided"),
 "C17": dict(cat="proof", tech="algebraic summaries of the time-map branches: continuity/C1 at the switch, backward = derivative, inverse identities on every piece of the inverse between consecutive switch points (refuted only by exact evaluation at a sample point), signs decided exactly (assumptions, real-root counting)",
   text="Branch-wise calculus on the extracted closed forms for all real tau and T>0.",
   note="exact arithmetic; monotonicity between adjacent floats not decided"),
 "C19": dict(cat="proof", tech="structural rules on checkGradients: perturb/restore typestate per component, central-difference formula, same functors/workspace, final re-evaluation",
   text="Loop covers every component with +eps/-eps/restore, formula (c+-c-)/(2eps), final evaluation at x into the analytic gradient, verdict formula, forwarding overload.",
   note="accuracy of finite differences for a particular user cost not decided"),
 "C20": dict(cat="other", tech="abstract interpretation of the sampling and arc-length helpers per path of their data tests (sequence content, append condition, Riemann summand with opaque evaluate) + structural summaries of the factories",
   text="Sequence construction formula, end-append rule, left-Riemann formula, batch = pointwise, factory coefficient construction are checked structurally; floating-point floor effects are listed as not decided.",
   note="value-dependent clauses (floor rounding, overflow of the step count, discretisation bound) not decided"),
}

NA_REASON = {
 "C18": "bounds a floating-point residual of an un-pivoted block elimination as a function of the duration ratio; no sound static bound (abstract domain) for rounding-error growth is in reach of this technique, and goto-analyzer cannot parse this C++ (DESIGN s6 C18)",
}


def main():
    props = [json.loads(l)["id"] for l in open(os.path.join(VERIF, "properties.jsonl")) if l.strip()]
    checks = []
    na = []
    for pid in props:
        if pid in READY and pid in P:
            d = P[pid]
            checks.append({
                "property_id": pid,
                "quick_cmd": "python3-vt sa/check.py %s --tier quick" % pid,
                "thorough_cmd": "python3-vt sa/check.py %s --tier thorough" % pid,
                "evidence_file": "/verif/evidence/%s.json" % pid,
                "replay_cmd_template": "python3-vt sa/check.py %s --explain {path}" % pid,
                "engine": "stx+sa",
                "level_claimed": {"category": d["cat"], "text": d["text"], "design_ref": "DESIGN.md s6 " + pid},
                "level_note": d["note"],
                "technique": "static analysis: " + d["tech"],
            })
        else:
            reason = NA_REASON.get(pid) or ("static checker for this property is not built yet in this tree "
                                            "(planned, DESIGN.md s6 %s); not claimed until it is validated both ways" % pid)
            na.append({"property_id": pid, "reason": reason})
    m = {
        "version": 1,
        "setup_cmd": "sh tools/setup.sh",
        "hooks": {"guard": "SPLINETRAJECTORY_VERIF",
                  "enable": "no hook is needed: checks read /repo/include through clang (witnesses use -fno-access-control)",
                  "baseline_off_cmd": "sh /verif/tools/baseline_off.sh",
                  "source_commits": [], "add_only": True},
        "engines": [
            {"name": "stx", "path": "stx/stx.cc", "serves_properties": [c["property_id"] for c in checks],
             "kind_free_text": "LibTooling fact extractor: resolved, instantiated AST of include/Spline*.hpp as JSON"},
            {"name": "sa", "path": "sa/", "serves_properties": [c["property_id"] for c in checks],
             "kind_free_text": "Python analysers over the facts: typestate dataflow (flow.py), effects/regions (effects.py), algebraic summaries (sym.py), per-property rules (props/)"},
        ],
        "checks": checks,
        "not_applicable": na,
        "notes": "exit 2 = analysis broken (anchor vanished, unsupported construct, vacuous rule): never a pass, never a violation. Known findings: /verif/known_findings.json.",
    }
    json.dump(m, open(os.path.join(VERIF, "MANIFEST.json"), "w"), indent=1)
    print("MANIFEST.json: %d checks, %d not_applicable" % (len(checks), len(na)))


if __name__ == "__main__":
    main()
