#!/usr/bin/env python3
"""Behaviour-preserving probe: apply one *global* syntactic rewrite at a time to a scratch copy of the headers (every site
the pattern matches), check that the witness TU still compiles, and run every check.  Every check must still pass.
usage: python3-vt tools/syntactic_sweep.py [T1 T2 ...]"""
import os, re, shutil, subprocess, sys, tempfile
VERIF = os.path.dirname(os.path.dirname(os.path.abspath(__file__)))
HDRS = ("SplineTrajectory.hpp", "SplineOptimizer.hpp")
R = {
 "T1": ("++i -> i++ in loop headers", [(r"; \+\+(\w+)\)", r"; \1++)", 0)], HDRS),
 "T2": ("i < N -> N > i in loop headers", [(r"(for \([^;]*; )(\w+) < ([\w\.\(\)_ \-\+\*]+?);", r"\g<1>\3 > \2;", 0)], HDRS),
 "T3": ("x += y -> x = x + (y)", [(r"^(\s+)(\w+) \+= ([^;\n]+);$", r"\1\2 = \2 + (\3);", re.M)], HDRS),
 "T4": ("x -= y -> x = x - (y)", [(r"^(\s+)(\w+) -= ([^;\n]+);$", r"\1\2 = \2 - (\3);", re.M)], HDRS),
 "T6": ("const dropped from scalar locals", [(r"^(\s+)const (int|double|size_t) (\w+) = ", r"\1\2 \3 = ", re.M)], HDRS),
 "T7": ("static_cast<T>(x) -> T(x)", [(r"static_cast<(int|double|size_t)>\(", r"\1(", 0)], HDRS),
 "T9": ("x + 1 -> 1 + x where it is a whole operand", [(r"(\(|\[|, |= )([a-z]\w*) \+ 1(\)|\]|,|;)", r"\g<1>1 + \2\3", 0)], HDRS),
 "T14": ("int loop counters -> Eigen::Index (trajectory header)", [(r"for \(int ([a-z]\w*) = ", r"for (Eigen::Index \1 = ", 0)], ("SplineTrajectory.hpp",)),
 "T15": ("braces around single return / continue / break after if", [(r"^(\s+)(if \([^\n]*\))\n(\s+)(return[^\n;]*;|continue;|break;)\n", r"\1\2\n\1{\n\3\4\n\1}\n", re.M)], HDRS),
}
# T16: assert() statements added after a few anchors (analysed without NDEBUG the macro expands to a conditional call of
# __assert_fail with __PRETTY_FUNCTION__)
ASSERT_ANCHORS = {"SplineTrajectory.hpp": ["            const int n = num_segments_;\n", "            num_segments_ = static_cast<int>(time_segments_.size());\n"],
                  "SplineOptimizer.hpp": ["            Workspace& ws_ref = (ws != nullptr) ? *ws : *getOrCreateInternalWorkspace();\n"]}
R["T16"] = ("assert() statements added", [], HDRS)
# T17: an equality chain on a constant written as a switch (lowered back to the if-chain by the extractor)
R["T17"] = ("if (idx == 0) chains -> switch (idx)", [
    (r"^(\s+)if \(idx == 0\)\n\s+\{\n(\s+[^\n]+;)\n\s+\}\n\s+else if \(idx == n\)\n\s+\{\n(\s+[^\n]+;)\n\s+\}\n\s+else\n\s+\{\n(\s+[^\n]+;)\n\s+\}\n",
     r"\1switch (idx)\n\1{\n\1case 0:\n\2\n\1    break;\n\1default:\n\1    if (idx == n)\n\1    {\n\3\n\1    }\n\1    else\n\1    {\n\4\n\1    }\n\1}\n", re.M),
    (r"^(\s+)if \(idx == 0\)\n\s+\{\n(\s+return [^\n]+;)\n\s+\}\n", r"\1switch (idx)\n\1{\n\1case 0:\n\2\n\1default:\n\1    break;\n\1}\n", re.M)], HDRS)
# T18..T21: ordinary Eigen / C++ respellings
R["T18"] = ("x.resize(a); x.setZero(); -> x.setZero(a);", [(r"^(\s+)(\w+)\.resize\(([^;\n]+)\);\n\s+\2\.setZero\(\);\n", r"\1\2.setZero(\3);\n", re.M)], HDRS)
R["T19"] = ("i * k + c -> k * i + c in index positions", [(r"(\(|\[|, )([a-z]\w*) \* (\d+)( \+ \d+)?(\)|\]|,)", r"\1\3 * \2\4\5", 0)], HDRS)
R["T20"] = ("const int x = <member or cast> -> const auto x", [(r"^(\s+)const int (\w+) = (static_cast<int>\([^;\n]*\)|\w+_);$", r"\1const auto \2 = \3;", re.M)], HDRS)
R["T21"] = ("explicit this-> on the segment-count member", [(r"(?<![\w.>:])num_segments_\b(?!;| =|\{|\()", r"this->num_segments_", 0)], HDRS)
R["T24"] = ("x.row(e) -> x.template block<1, DIM>(e, 0) where x has DIM columns", [(r"(?<!ws_gd_internal_)(?<!gdC)(?<!coeffs)\.row\(([^()]*(?:\([^()]*\)[^()]*)*)\)", r".template block<1, DIM>(\1, 0)", 0)], ("SplineTrajectory.hpp",))
R["T29"] = ("++i -> i += 1 in loop headers", [(r"; \+\+(\w+)\)", r"; \1 += 1)", 0)], HDRS)
R["T30"] = ("i < n -> i <= (n) - 1 in int loops", [(r"(for \(int (\w+) = [^;]+; )\2 < ([^;]+);", r"\1\2 <= (\3) - 1;", 0)], HDRS)
R["T35"] = ("k.0 * x -> k * x", [(r"(?<![\w.])(\d+)\.0 \* ", r"\1 * ", 0)], HDRS)
R["T39"] = ("const auto &x = member[i] -> const auto x = member[i]", [(r"const auto &(\w+) = (\w+_\[[^\]]+\]);", r"const auto \1 = \2;", 0)], HDRS)
# T40 / T41: additions that change no result - a diagnostic counter bumped by every cubic update (with a getter), and an
# argument check that throws on an empty problem (outside the domain of every property)
R["T40"] = ("diagnostic update counter added to the cubic spline", [], ("SplineTrajectory.hpp",))
R["T41"] = ("update throws on an empty problem", [(r"^(\s+)(num_segments_ = static_cast<int>\(time_segments_\.size\(\)\);)$",
                                                  r'\1if (time_segments_.empty())\n\1    throw std::invalid_argument("spline update: no segments");\n\1\2', re.M),
                                                 (r"#include <vector>", "#include <vector>\n#include <stdexcept>", 0)], ("SplineTrajectory.hpp",))


def t40(s):
    a = "        inline void updateSplineInternal()\n        {\n            num_segments_ = static_cast<int>(time_segments_.size());\n"
    if s.count(a) != 1:
        return s, 0
    s = s.replace(a, a + "            ++update_count_;\n")
    b = "        int num_segments_;\n"
    i = s.index(b, s.index("class CubicSplineND"))
    s = s[:i] + b + "        int update_count_ = 0;\n" + s[i + len(b):]
    g = "        int getNumSegments() const\n"
    j = s.index(g, s.index("class CubicSplineND"))
    return s[:j] + "        int getUpdateCount() const { return update_count_; }\n\n" + s[j:], 3

CHECKS = [l.strip() for l in open(os.path.join(VERIF, "tools", "ready.txt")) if l.strip() and not l.startswith("#")]
bad = 0
for t in (sys.argv[1:] or sorted(R)):
    what, rules, hdrs = R[t]
    d = tempfile.mkdtemp(prefix="stxsyn-")
    try:
        shutil.copytree("/repo/include", os.path.join(d, "include"))
        n = 0
        for h in hdrs:
            p = os.path.join(d, "include", h)
            s = open(p).read()
            for pat, rep, fl in rules:
                s, k = re.subn(pat, rep, s, flags=fl)
                n += k
            if t == "T40":
                s, k = t40(s)
                n += k
            if t == "T16":
                for a in ASSERT_ANCHORS.get(h, []):
                    n += s.count(a)
                    s = s.replace(a, a + "            assert(num_segments_ >= 0);\n")
                s = s.replace("#include <vector>", "#include <vector>\n#include <cassert>", 1)
            open(p, "w").write(s)
        r = subprocess.run(["clang++", "-std=gnu++17", "-fsyntax-only", "-I" + os.path.join(d, "include"), "-I/usr/include/eigen3", os.path.join(VERIF, "wit", "wit_quick.cpp")], capture_output=True, text=True)
        if r.returncode != 0:
            print("%s (%s, %d sites): does not compile" % (t, what, n))
            continue
        res = []
        for pid in CHECKS:
            rr = subprocess.run([sys.executable, os.path.join(VERIF, "sa", "check.py"), pid, "--root", d, "--no-evidence"], capture_output=True, text=True, cwd=VERIF)
            if rr.returncode != 0:
                res.append("%s rc=%d" % (pid, rr.returncode))
                bad += 1
        print("%s (%s, %d sites): %s" % (t, what, n, "; ".join(res) or "all checks pass"), flush=True)
    finally:
        shutil.rmtree(d, ignore_errors=True)
sys.exit(1 if bad else 0)
