#!/usr/bin/env python3
"""Prints the Markdown table of seeded mutants / benign edits per property (DESIGN.md Appendix A)."""
import glob, json, os
V = os.path.dirname(os.path.dirname(os.path.abspath(__file__)))
print("| property | seeded mutants (rule that must fire) | benign edits (must stay green) | reported as analysis-broken (exit 2) |")
print("|---|---|---|---|")
for p in sorted(glob.glob(os.path.join(V, "mutants", "C*.json"))):
    pid = os.path.basename(p)[:-5]
    ms = json.load(open(p))
    mut = ["%s (%s)" % (m["name"], m.get("rule", "any")) for m in ms if m.get("expect", "violation") == "violation"]
    ben = [m["name"] for m in ms if m.get("expect") == "pass"]
    brk = [m["name"] for m in ms if m.get("expect") == "broken"]
    print("| %s | %s | %s | %s |" % (pid, "; ".join(mut), "; ".join(ben), "; ".join(brk)))
