// Witness translation unit (quick instantiation set), DESIGN.md s3.2.
// Never compiled to code and never run: it only makes clang instantiate the
// library templates so that stx can read their type-checked bodies.
#include "SplineOptimizer.hpp"
#include "SplineTrajectory.hpp"

using namespace SplineTrajectory;

#ifndef WIT_DIM_A
#define WIT_DIM_A 3
#endif

template class SplineTrajectory::PPolyND<WIT_DIM_A, 4>;
template class SplineTrajectory::PPolyND<WIT_DIM_A, 6>;
template class SplineTrajectory::PPolyND<WIT_DIM_A, 8>;
template class SplineTrajectory::PPolyND<WIT_DIM_A>;
template class SplineTrajectory::CubicSplineND<WIT_DIM_A>;
template class SplineTrajectory::QuinticSplineND<WIT_DIM_A>;
template class SplineTrajectory::SepticSplineND<WIT_DIM_A>;
template struct SplineTrajectory::BoundaryConditions<WIT_DIM_A>;
#ifndef WIT_NO_EXTRA_DIMS
template class SplineTrajectory::SepticSplineND<4>;
template class SplineTrajectory::SepticSplineND<2>;
template class SplineTrajectory::QuinticSplineND<1>;
template class SplineTrajectory::CubicSplineND<1>;
template class SplineTrajectory::SepticSplineND<1>;
template class SplineTrajectory::PPolyND<1, 6>;
#endif

struct WitTimeCost
{
    double operator()(const std::vector<double> &Ts, Eigen::VectorXd &grad) const;
};
struct WitWaypointsCost
{
    template <class A, class B>
    double operator()(const A &q, B &grad_q) const;
};
struct WitIntegralCost
{
    template <class V>
    double operator()(double t, double t_global, int i, const V &p, const V &v, const V &a, const V &j, const V &s,
                      V &gp, V &gv, V &ga, V &gj, V &gs, double &gt) const;
};
struct WitSpatialMap
{
    int getUnconstrainedDim(int index) const;
    Eigen::VectorXd toPhysical(const Eigen::VectorXd &xi, int index) const;
    Eigen::VectorXd toUnconstrained(const Eigen::VectorXd &p, int index) const;
    Eigen::VectorXd backwardGrad(const Eigen::VectorXd &xi, const Eigen::VectorXd &grad_p, int index) const;
};

template <class Opt>
void witness_optimizer(Opt &opt, const Opt &copt)
{
    Eigen::VectorXd x, g;
    WitTimeCost tc;
    WitWaypointsCost wc;
    WitIntegralCost ic;
    typename Opt::Workspace ws;
    (void)copt.evaluate(x, g, tc, wc, ic);
    (void)copt.evaluate(x, g, tc, ic);
    (void)copt.evaluate(x, g, tc, wc, ic, &ws, SerialExecutor());
    (void)copt.evaluate(x, g, tc, wc, ic, &ws, OpenMPExecutor());
    (void)opt.checkGradients(x, tc, wc, ic);
    (void)opt.checkGradients(x, tc, ic);
    Opt c2(copt);
    c2 = copt;
}

template class SplineTrajectory::SplineOptimizer<WIT_DIM_A, CubicSplineND<WIT_DIM_A>>;
template class SplineTrajectory::SplineOptimizer<WIT_DIM_A, QuinticSplineND<WIT_DIM_A>>;
template class SplineTrajectory::SplineOptimizer<WIT_DIM_A, SepticSplineND<WIT_DIM_A>>;
template class SplineTrajectory::SplineOptimizer<WIT_DIM_A, QuinticSplineND<WIT_DIM_A>, IdentityTimeMap, WitSpatialMap>;

template void witness_optimizer(SplineOptimizer<WIT_DIM_A, CubicSplineND<WIT_DIM_A>> &, const SplineOptimizer<WIT_DIM_A, CubicSplineND<WIT_DIM_A>> &);
template void witness_optimizer(SplineOptimizer<WIT_DIM_A, QuinticSplineND<WIT_DIM_A>> &, const SplineOptimizer<WIT_DIM_A, QuinticSplineND<WIT_DIM_A>> &);
template void witness_optimizer(SplineOptimizer<WIT_DIM_A, SepticSplineND<WIT_DIM_A>> &, const SplineOptimizer<WIT_DIM_A, SepticSplineND<WIT_DIM_A>> &);
template void witness_optimizer(SplineOptimizer<WIT_DIM_A, QuinticSplineND<WIT_DIM_A>, IdentityTimeMap, WitSpatialMap> &,
                                const SplineOptimizer<WIT_DIM_A, QuinticSplineND<WIT_DIM_A>, IdentityTimeMap, WitSpatialMap> &);

// never called by the library itself (the call sits in a discarded if-constexpr branch): instantiate for C08-R5
template double SplineTrajectory::VoidWaypointsCost::operator()<Eigen::MatrixXd, Eigen::MatrixXd>(const Eigen::MatrixXd &, Eigen::MatrixXd &) const;
